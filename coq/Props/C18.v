(* C18 -- paged results yield every row exactly once, in order.
   Model: Model/Paging.v (ResultSet + ResponseFuture paging over a scripted server), tied to cassandra/cluster.py
   by correspondence (checks/C18.py).  `server` is ANY script: any number of pages, any page sizes incl. empty, and
   any number of page requests that end in an error delivered to the application (`Fail`) and of speculative
   executions firing inside a page fetch (`Spec`), anywhere; plus continuous paging sessions (`init_cont`). *)
From Coq Require Import ZArith List Bool.
From Verif Require Import Paging C18_proofs.
Import ListNotations.
Local Open Scope Z_scope.

(* list(result_set) / `for row in result_set` terminates (fuel not exhausted) and returns the concatenation of
   all pages' rows in server order (no failing request: an exception would leave list()/the loop) *)
Theorem C18_iter : forall srv, nfails srv = O -> snd (iterate srv) = VRows (concat (pages srv)).
Proof. intros srv H. rewrite (proj1 (iterate_spec srv H)), all_rows_concat. reflexivity. Qed.
Print Assumptions C18_iter.

(* an application that keeps calling next() on the same iterator after failed page fetches still gets every row
   exactly once, in order; a failed request is repeated with the SAME paging state (that of the last page received) *)
Theorem C18_iter_across_failures : forall srv,
  snd (iterate_retry srv) = VRows (concat (pages srv)) /\ reqs (fst (iterate_retry srv)) = expected_reqs None srv.
Proof. intros srv. destruct (iterate_retry_spec srv) as [A B]. rewrite A, all_rows_concat. auto. Qed.
Print Assumptions C18_iter_across_failures.

(* the first request carries no paging state; request k (k >= 1) carries the state returned with page k-1 *)
Theorem C18_states : forall srv, nfails srv = O -> nspecs srv = O -> reqs (fst (iterate srv)) = None :: map Some (states srv).
Proof. intros srv H H'. exact (proj2 (iterate_spec srv H) H'). Qed.
Print Assumptions C18_states.

Theorem C18_states_kth : forall srv k st, nfails srv = O -> nspecs srv = O -> nth_error (states srv) k = Some st ->
  nth_error (reqs (fst (iterate srv))) (S k) = Some (Some st).
Proof. intros srv k st Hn Hs H. rewrite (C18_states srv Hn Hs). cbn. rewrite nth_error_map, H. reflexivity. Qed.
Print Assumptions C18_states_kth.

(* for ANY access pattern (any sequence of iter/next/fetch_next_page/one/[i]/==/list calls, failures and speculative
   executions included): the requests sent are a prefix of the expected sequence (states in order; a repeated failed
   request and a speculative execution of a page fetch carry the same state as the regular request of that page),
   and never more requests than pages + failures: nothing is requested after the page without paging state *)
Theorem C18_stops : forall srv ops,
  let '(s0, o0) := init srv in let '(s', o) := run_state s0 ops in
  (exists rest, reqs (o0 ++ o) ++ rest = expected_reqs None srv)
  /\ (length (reqs (o0 ++ o)) <= npages srv + nfails srv + nspecs srv)%nat.
Proof.
  intros srv ops. pose proof (any_pattern_prefix srv ops) as P.
  destruct (init srv) as [s0 o0]. destruct (run_state s0 ops) as [s' o].
  split; [eexists; exact P|].
  apply (f_equal (@length _)) in P. rewrite app_length, expected_length in P. unfold size in P. rewrite <- P. apply Nat.le_add_r.
Qed.
Print Assumptions C18_stops.

Theorem C18_expected_nofail : forall srv, nfails srv = O -> nspecs srv = O -> expected_reqs None srv = None :: map Some (states srv).
Proof. intros srv H H'. apply expected_nofail; assumption. Qed.
Print Assumptions C18_expected_nofail.

(* exactly as many requests as pages when iterating to the end *)
Theorem C18_stops_iter : forall srv, nfails srv = O -> nspecs srv = O -> length (reqs (fst (iterate srv))) = npages srv.
Proof. intros srv H H'. rewrite (C18_states srv H H'). cbn. rewrite map_length. apply states_length. Qed.
Print Assumptions C18_stops_iter.

(* materialising through the index / equality operators agrees with iteration (same rows or same exception, same requests) *)
Theorem C18_list_eq_iter : forall srv, materialise srv = iterate srv.
Proof. exact materialise_spec. Qed.
Print Assumptions C18_list_eq_iter.

Theorem C18_getitem : forall srv i, nfails srv = O -> nspecs srv = O -> let '(s0, _) := init srv in
  exists o, snd (step s0 (OGetItem i)) = o ++ [Ret (py_getitem (concat (pages srv)) i)] /\ reqs o = map Some (states srv).
Proof. intros srv i H H'. rewrite <- all_rows_concat. exact (getitem_spec srv i H H'). Qed.
Print Assumptions C18_getitem.

Theorem C18_eq : forall srv other, nfails srv = O -> nspecs srv = O -> let '(s0, _) := init srv in
  exists o b, snd (step s0 (OEq other)) = o ++ [Ret (VBool b)] /\ (b = true <-> concat (pages srv) = other).
Proof.
  intros srv other Hn Hs. pose proof (eq_spec srv other Hn Hs) as E. destruct (init srv) as [s0 o0].
  destruct E as (o & E & _). exists o, (zlist_eqb (all_rows srv) other). split; [exact E|].
  rewrite <- all_rows_concat. apply zlist_eqb_eq.
Qed.
Print Assumptions C18_eq.

(* manual paging (current_rows; while has_more_pages: fetch_next_page() [called again if it raised]; current_rows)
   yields the same rows and sends the same requests as iteration -- with or without failing requests *)
Theorem C18_manual_eq_iter : forall srv,
  snd (manual srv) = Some (concat (pages srv)) /\ reqs (fst (manual srv)) = reqs (fst (iterate_retry srv)).
Proof.
  intros srv. destruct (manual_spec srv) as (o & E & R). destruct (iterate_retry_spec srv) as [_ R2].
  rewrite E, R2. cbn [fst snd]. rewrite all_rows_concat. auto.
Qed.
Print Assumptions C18_manual_eq_iter.

(* callback-driven paging (add_callbacks(handle_page, ...) with handle_page calling start_fetching_next_page()):
   the handler is given every row exactly once, in order, and finishes -- whether the first page arrived before or
   after the callbacks were registered -- with the same requests as iteration *)
Theorem C18_async_eq_iter : forall early srv, nfails srv = O ->
  let '(o, r, f) := async_pages early srv in
  r = concat (pages srv) /\ f = true /\ reqs o = reqs (fst (iterate_retry srv)).
Proof.
  intros early srv Hn. pose proof (async_pages_spec early srv Hn) as A. destruct (async_pages early srv) as [[o r] f].
  destruct A as (A1 & A2 & A3). destruct (iterate_retry_spec srv) as [_ R]. rewrite A1, A2, R, all_rows_concat. auto.
Qed.
Print Assumptions C18_async_eq_iter.

(* ---- continuous paging (DSE_V1 and DSE_V2): one request; the pushed pages come out once, in order ---- *)
Theorem C18_cont_iter : forall srv, snd (iterate_cont srv) = [Ret (VRows (concat (pages srv)))].
Proof. intros srv. unfold iterate_cont, init_cont. destruct (init srv) as [s0 o0]. cbn. rewrite all_rows_concat. reflexivity. Qed.
Print Assumptions C18_cont_iter.

(* step by step: after iter(), the k-th next() returns the k-th row of the concatenation *)
Theorem C18_cont_steps : forall srv, let '(a0, _) := init_cont srv in
  snd (arun_state (fst (astep a0 OIter)) (repeat ONext (length (concat (pages srv))))) = map (fun r => Ret (VRow r)) (concat (pages srv)).
Proof.
  intros srv. unfold init_cont. destruct (init srv) as [s0 o0]. cbn [astep cstep fst gen cmore]. rewrite <- all_rows_concat.
  apply cont_next_steps.
Qed.
Print Assumptions C18_cont_steps.

(* no page is ever requested by a continuous result, whatever (modelled) calls are made and however far they go
   past the last row: iter/next/list/one/[i]/==/has_more_pages/paging_state *)
Theorem C18_cont_no_requests : forall srv ops, forallb cont_op ops = true ->
  let '(a0, o0) := init_cont srv in reqs (snd (arun_state a0 ops)) = [].
Proof.
  intros srv ops H. unfold init_cont. destruct (init srv) as [s0 o0]. apply (arun_quiet ops); [exact I | exact H].
Qed.
Print Assumptions C18_cont_no_requests.

(* non-vacuity: four pages, two of them empty, one page request failing twice *)
Example C18_nonvacuous :
  let srv := More [1; 2] 10 (More [] 11 (Fail (Fail (More [3] 12 (Last []))))) in
  iterate (More [1] 10 (Spec (More [2] 11 (Last [3])))) = ([Req None; Req (Some 10); Req (Some 10); Req (Some 11)], VRows [1; 2; 3])
  /\ arun_state (fst (init_cont (More [1] 10 (More [] 11 (Last [2])))))  [OIter; ONext; ONext; ONext; ONext; OHasMore]
      = (Cont (mkCS [] true (Some (10, More [] 11 (Last [2])))), [Ret VSelf; Ret (VRow 1); Ret (VRow 2); Ret VStop; Ret VStop; Ret (VBool true)])
  /\ iterate_retry srv = ([Req None; Req (Some 10); Req (Some 11); Req (Some 11); Req (Some 11); Req (Some 12)], VRows [1; 2; 3])
  /\ manual srv = ([Req None; Req (Some 10); Req (Some 11); Req (Some 11); Req (Some 11); Req (Some 12)], Some [1; 2; 3])
  /\ snd (iterate srv) = VError
  /\ snd (run_state (fst (init srv)) [OIter; ONext; ONext; ONext; ONext; ONext; ONext]) =
     [Ret VSelf; Ret (VRow 1); Ret (VRow 2); Req (Some 10); Req (Some 11); Ret VError; Req (Some 11); Ret VError;
      Req (Some 11); Ret (VRow 3); Req (Some 12); Ret VStop].
Proof. repeat split. Qed.
