(* C29 -- Simple-statement parameters are injection-safe and value-preserving.
   Model: Model/Encoder.v (mirror of cassandra/encoder.py + an independent CQL term parser and its denotation);
   the Encoder table, dispatch mode and Decimal route are REGENERATED from source (Gen/EncoderTable.v).
   Python's own printing of floats and Decimals enters as Section variables with the assumed laws below
   (DESIGN C29 "not covered"); every generated float/Decimal is checked against them by checks/C29.py. *)
From Coq Require Import String Ascii.
From Coq Require Import ZArith List Bool Lia.
From Verif Require Import CqlKeywords CqlLex EncoderTable Encoder C27_proofs C29_proofs.
Import ListNotations.
Local Open Scope Z_scope.

Section C29.
Variable F : Type.                                   (* finite binary64 values *)
Variable repr_float : F -> str.                      (* Python repr(float) *)
Variable read_float : str -> option F.               (* Double.parseDouble on a FLOAT token *)
Variable str_decimal : bool -> Z -> Z -> str.        (* Python str(Decimal((sign, coefficient, exponent))) *)
Variable dec_to_float : bool -> Z -> Z -> fval F.    (* Python float(Decimal) -- only used by the via-float route *)

(* assumed laws of Python's float / Decimal printing *)
Hypothesis float_parses : forall f fuel rest, ends_ok rest = true ->
  parse_term (S fuel) (repr_float f ++ rest) = Some (TFloat (repr_float f), rest).
Hypothesis float_reads : forall f, read_float (repr_float f) = Some f.
Hypothesis float_head : forall f, head_ok (repr_float f) = true.
Hypothesis decimal_parses : forall neg c e fuel rest, 0 <= c -> ends_ok rest = true ->
  parse_term (S fuel) (str_decimal neg c e ++ rest) =
  Some (if e =? 0 then TInt (if neg then - c else c) else TFloat (str_decimal neg c e), rest).
Hypothesis decimal_reads : forall neg c e, 0 <= c -> e <> 0 ->
  read_decimal (str_decimal neg c e) = Some (if neg then - c else c, - e).
Hypothesis decimal_head : forall neg c e, 0 <= c -> head_ok (str_decimal neg c e) = true.

Notation encode_with := (encode F repr_float str_decimal dec_to_float).
Notation enc := (encode_cur F repr_float str_decimal dec_to_float).

(* the full statement, for an encoder with a given dispatch mode / Decimal route: every supported value -- instances of
   subclasses included (sub = true), any nesting depth -- is emitted as exactly one CQL term, and that term denotes, for
   the CQL type the encoder targets, the value the prepared-statement path sends *)
Definition C29_full_statement (exact via_float : bool) : Prop :=
  forall v : pv F, supported F v = true ->
  exists t, parse_one (encode_with exact via_float v) = Some (t, []) /\
            denote F read_float (kind_of F v) t = Some (prepared F v).

(* the encoder of the working tree *)
Theorem C29_one_term : C29_full_statement encoder_dispatch_exact encoder_decimal_via_float.
Proof.
  change encoder_dispatch_exact with false. change encoder_decimal_via_float with false.
  intros v Hs. exists (term_of F repr_float str_decimal v). split.
  - unfold parse_one.
    pose proof (proj1 (parse_enc F repr_float str_decimal dec_to_float float_parses float_head decimal_parses decimal_head) v Hs
                  (S (length (encode_with false false v))) []) as H.
    rewrite app_nil_r in H. apply H; [|reflexivity].
    pose proof (proj1 (need_le_len F repr_float str_decimal dec_to_float float_head decimal_head) v Hs). lia.
  - apply (proj1 (denote_term_of F repr_float read_float str_decimal float_reads decimal_reads) v Hs).
Qed.

(* substitution by bind_params (`query % tuple(...)`): the literal sits in place and is read as one term, whatever follows
   it (a delimiter or the end of the statement); %(name)s holes behave the same in any order *)
Theorem C29_bind_positional : forall pre post v, supported F v = true -> ends_ok post = true ->
  bind_params_cur F repr_float str_decimal dec_to_float [Lit pre; Hole 0; Lit post] [v] = Some (pre ++ enc v ++ post) /\
  parse_term (S (length (enc v))) (enc v ++ post) = Some (term_of F repr_float str_decimal v, post).
Proof.
  unfold bind_params_cur, encode_cur. change encoder_dispatch_exact with false. change encoder_decimal_via_float with false.
  intros pre post v Hs Hp. split.
  - cbn. rewrite app_nil_r. reflexivity.
  - apply (proj1 (parse_enc F repr_float str_decimal dec_to_float float_parses float_head decimal_parses decimal_head) v Hs); [|assumption].
    pose proof (proj1 (need_le_len F repr_float str_decimal dec_to_float float_head decimal_head) v Hs). lia.
Qed.

Theorem C29_bind_named : forall a b c v0 v1,
  bind_params_cur F repr_float str_decimal dec_to_float [Lit a; Hole 1; Lit b; Hole 0; Lit c] [v0; v1] =
  Some (a ++ enc v1 ++ b ++ enc v0 ++ c).
Proof. intros. unfold bind_params_cur, encode_cur. cbn. rewrite app_nil_r. reflexivity. Qed.

(* record of the defect found by this check (fixed in the driver, findings/C29.json): with the exact-type dispatch an
   instance of a str subclass is substituted unquoted -- the full statement is false, whatever the printing oracles *)
Theorem C29_exact_dispatch_refuted : ~ C29_full_statement true false.
Proof.
  intros H. specialize (H (VStr true (codes "x' OR 1=1 --")) eq_refl). destruct H as (t & H & _).
  vm_compute in H. discriminate.
Qed.

(* ... and it holds for the exact dispatch once subclass instances are excluded (no_sub: Model/Encoder.v) *)
Theorem C29_exact_dispatch_partial : forall v : pv F, supported F v = true -> no_sub F v = true ->
  exists t, parse_one (encode_with true false v) = Some (t, []) /\ denote F read_float (kind_of F v) t = Some (prepared F v).
Proof.
  intros v Hs Hn. rewrite (proj1 (exact_same F repr_float str_decimal dec_to_float) v Hn).
  pose proof C29_one_term as H. unfold C29_full_statement in H. revert H.
  change encoder_dispatch_exact with false. change encoder_decimal_via_float with false. intros H. exact (H v Hs).
Qed.

(* non-vacuity: a nested value with subclass instances, quotes and a blob is supported and read back *)
Example C29_nonvacuous :
  let v := VSeq true SList (PCons (VStr true (codes "x' OR 1=1 --"))
             (PCons (VMap true (MCons (VInt true (-7)) (VSet false (PCons (VBytes true [0; 255]) PNil)) MNil))
             (PCons VNone PNil))) : pv F in
  supported F v = true /\
  enc v = codes "['x'' OR 1=1 --', {-7: {0x00ff}}, NULL]" /\
  parse_one (enc v) = Some (TList (TCons (TStr (codes "x' OR 1=1 --"))
                             (TCons (TMap (TMCons (TInt (-7)) (TBraces (TCons (THex [0; 255]) TNil)) TMNil)) (TCons TNull TNil))), []).
Proof. vm_compute. repeat split; reflexivity. Qed.

End C29.

(* the Encoder type -> function table the model assumes, as REGENERATED from Encoder.__init__ *)
Definition table_has (ty fn : string) : bool :=
  existsb (fun p => String.eqb (fst p) ty && String.eqb (snd p) fn) encoder_mapping.
Theorem C29_table :
  forallb (fun p => table_has (fst p) (snd p))
    [("float", "cql_encode_float"); ("Decimal", "cql_encode_decimal"); ("str", "cql_encode_str"); ("int", "cql_encode_object");
     ("UUID", "cql_encode_object"); ("bytes", "cql_encode_bytes"); ("bytearray", "cql_encode_bytes"); ("memoryview", "cql_encode_bytes");
     ("datetime.datetime", "cql_encode_datetime"); ("datetime.date", "cql_encode_date"); ("datetime.time", "cql_encode_time");
     ("Date", "cql_encode_date_ext"); ("Time", "cql_encode_time"); ("dict", "cql_encode_map_collection");
     ("OrderedDict", "cql_encode_map_collection"); ("OrderedMap", "cql_encode_map_collection"); ("list", "cql_encode_list_collection");
     ("tuple", "cql_encode_list_collection"); ("set", "cql_encode_set_collection"); ("sortedset", "cql_encode_set_collection");
     ("frozenset", "cql_encode_set_collection"); ("ValueSequence", "cql_encode_sequence"); ("type(None)", "cql_encode_none");
     ("ipaddress.IPv4Address", "cql_encode_ipaddress"); ("ipaddress.IPv6Address", "cql_encode_ipaddress")]%string = true
  /\ table_has "bool" "cql_encode_object" = false.   (* bool is absent: it reaches cql_encode_object through int *)
Proof. vm_compute. split; reflexivity. Qed.

Print Assumptions C29_one_term.
Print Assumptions C29_bind_positional.
Print Assumptions C29_bind_named.
Print Assumptions C29_exact_dispatch_refuted.
Print Assumptions C29_exact_dispatch_partial.
Print Assumptions C29_table.
