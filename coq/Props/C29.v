From Verif Require Import CqlLex Encoder.
Theorem C29_stub : True. Proof. exact I. Qed.
Print Assumptions C29_stub.
