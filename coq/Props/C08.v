(* C08 -- partition tokens equal those of Cassandra's partitioners.
   murmur3_py / rotl64 / fmix / truncate_int64 / Murmur3Token.hash_fn are REGENERATED from cassandra/murmur3.py and
   cassandra/metadata.py on every run (Gen/Murmur3Gen.v); Model/Murmur3Spec.v is the independent Java-semantics spec. *)
From Coq Require Import ZArith List.
From Verif Require Import PyBase ByteWords Murmur3Ext Murmur3Spec Murmur3Gen TokenModels C08_proofs.
Import ListNotations.
Local Open Scope Z_scope.

(* for EVERY byte string (all lengths, all tail sizes, all byte values) the pure-Python hash equals Cassandra's
   MurmurHash.hash3_x64_128 first word as a signed long; the Python code never raises and never runs out of fuel *)
Theorem C08_murmur3 : forall key, Forall is_byte key -> murmur3_py key = Ok (murmur3_long key).
Proof. exact murmur3_py_correct. Qed.
Print Assumptions C08_murmur3.

(* Murmur3Token.hash_fn = Murmur3Partitioner.getToken, including MIN_LONG -> MAX_LONG *)
Theorem C08_murmur3_token : forall key, Forall is_byte key -> murmur3_hash_fn key = Ok (murmur3_token key).
Proof. exact hash_fn_correct. Qed.
Print Assumptions C08_murmur3_token.

Theorem C08_token_never_min_long : forall key, - 2 ^ 63 < murmur3_token key < 2 ^ 63.
Proof. exact murmur3_token_range. Qed.
Print Assumptions C08_token_never_min_long.

(* RandomPartitioner: abs of the MD5 digest as a signed big-endian integer, for any digest function *)
Theorem C08_md5 : forall (md5 : list Z -> list Z) key, Forall is_byte (md5 key) ->
  md5_hash_fn md5 key = random_token md5 key.
Proof. intros md5 key H. unfold md5_hash_fn, random_token. rewrite (varint_unpack_be_signed _ H). reflexivity. Qed.
Print Assumptions C08_md5.

(* ByteOrderedPartitioner: the token is the raw key *)
Theorem C08_bytes : forall key, bytes_hash_fn key = key.
Proof. reflexivity. Qed.
Print Assumptions C08_bytes.

Example C08_nonvacuous :
  murmur3_py [1;2;3;200;250;6;7;8;9;10;11;12;13;14;15;16;17;255;128] = Ok 5339654602748896185 /\
  murmur3_token [1;2;3;200;250;6;7;8;9;10;11;12;13;14;15;16;17;255;128] = 5339654602748896185.
Proof. split; vm_compute; reflexivity. Qed.

(* the MIN_LONG branch is reachable: this 16-byte key (uuid dfe76f52-023f-ad4c-82b8-61c2c65c7a6b) hashes to
   Long.MIN_VALUE, and its token is Long.MAX_VALUE *)
Example C08_min_long_reached :
  murmur3_long [223; 231; 111; 82; 2; 63; 173; 76; 130; 184; 97; 194; 198; 92; 122; 107] = - 2 ^ 63 /\
  murmur3_token [223; 231; 111; 82; 2; 63; 173; 76; 130; 184; 97; 194; 198; 92; 122; 107] = 2 ^ 63 - 1.
Proof. split; vm_compute; reflexivity. Qed.

(* ------------------------------------------------------------------ the C extension (cassandra/cmurmur3.c), which
   Murmur3Token.hash_fn uses whenever it is built.  Model/Murmur3C.v transcribes the C code with C integer semantics
   (int64_t wrap-around, signed char tail bytes); it is tied to the extension compiled from the working tree by
   correspondence on the key corpus (checks/C08.py, checks/C07.py).  For EVERY key it yields Cassandra's hash, hence
   Cassandra's token after the same MIN_LONG normalisation. *)
Require Verif.Model.Murmur3C Verif.Proofs.C07_proofs.

Theorem C08_c_extension_hash : forall key, Murmur3C.murmur3_c key = murmur3_long key.
Proof. exact C07_proofs.murmur3_c_correct. Qed.
Print Assumptions C08_c_extension_hash.

Theorem C08_c_extension_token : forall key,
  (if Murmur3C.murmur3_c key =? - 2 ^ 63 then 2 ^ 63 - 1 else Murmur3C.murmur3_c key) = murmur3_token key.
Proof. intros key. rewrite C07_proofs.murmur3_c_correct. reflexivity. Qed.
Print Assumptions C08_c_extension_token.
