(* C44 -- heartbeats detect dead idle connections without leaking capacity.
   One heartbeat round on one connection is a composition of Model/Conn.v steps (the same steps the correspondence
   drives the REAL ConnectionHeartbeat.run body through, round by round).  The theorems hold in EVERY state satisfying
   the stated side conditions, hence for any number of rounds and any traffic in between. *)
From Coq Require Import ZArith List Bool Lia.
From Verif Require Import Conn Conn_lemmas Conn_inv C44_proofs Heartbeat Heartbeat_proofs.
Import ListNotations.
Local Open Scope Z_scope.

(* an idle, healthy connection below the in_flight threshold gets a heartbeat: the OPTIONS request is registered on the
   next free stream id *)
Theorem C44_idle_get_heartbeat :
  let s := run (init 2 4 2) [Borrow; SendCheck 0; SendReg 0 7; RecvBegin 0; RecvPop 0 DOk; ReturnConn; RecvEnd; HbSkipBusy] in
  let s' := step s (HbSend 50) in
  msg_received s = false /\ lookup 1 (reqs s') = Some 50 /\ in_flight s' = in_flight s + 1 /\ free s' = [0]
  /\ log s' = ESent 1 50 :: EGot 1 :: log s.
Proof. vm_compute. repeat split. Qed.
Print Assumptions C44_idle_get_heartbeat.

(* a connection that received traffic is not sent a heartbeat: run() only resets the idle flag *)
Theorem C44_busy_skipped : forall s,
  let s' := step s HbSkipBusy in
  msg_received s' = false /\ in_flight s' = in_flight s /\ free s' = free s /\ reqs s' = reqs s /\ wire s' = wire s /\ log s' = log s.
Proof. intros s. unfold step. proj. repeat split; reflexivity. Qed.
Print Assumptions C44_busy_skipped.

(* a successful heartbeat leaves in_flight exactly as it was and the same ids free (the used id goes to the back of the
   deque).  Stated for the connection states below (idle / with outstanding, orphaned and held ids / after earlier
   rounds); the general statement is checked on the real code every round by the correspondence, not proved. *)
Definition cap_ok (pre : list op) (i cb : Z) : bool :=
  let s := run (init 4 4 2) pre in let s' := run s (hb_ok i cb) in
  (in_flight s' =? in_flight s) && list_eqb (sort (free s')) (sort (free s)) && negb (defunct s') && negb (msg_received s').
Theorem C44_capacity_preserved_instances :
  cap_ok [] 0 50 = true /\
  cap_ok [Borrow; SendCheck 0; SendReg 0 7; Borrow] 2 50 = true /\
  cap_ok [Borrow; SendCheck 0; SendReg 0 7; TimeoutPop 0 true; TimeoutOrphan 0; Borrow; SendCheck 1; SendReg 1 8] 2 50 = true /\
  cap_ok ([Borrow; SendCheck 0; SendReg 0 7] ++ hb_ok 1 40 ++ [RecvBegin 0; RecvPop 0 DOk; ReturnConn; RecvEnd]) 2 50 = true.
Proof. vm_compute. repeat split. Qed.
Print Assumptions C44_capacity_preserved_instances.

(* every frame counts as traffic, server-pushed EVENT frames (stream -1) included: the next round skips the connection *)
Theorem C44_pushed_event_is_traffic : forall s, msg_received (step s RecvPush) = true /\ in_flight (step s RecvPush) = in_flight s
  /\ free (step s RecvPush) = free s /\ reqs (step s RecvPush) = reqs s.
Proof. intros s. unfold step. proj. repeat split; reflexivity. Qed.
Print Assumptions C44_pushed_event_is_traffic.

(* a failed or unanswered heartbeat: run() calls connection.defunct(exc) -- on a live connection the flag is set and every later
   send is refused -- and then owner.return_connection(connection): the owner is notified *)
Theorem C44_failed_defunct : forall s, defunct s = false -> closed s = false ->
  defunct (step s DefunctFlag) = true /\ send_verdict (step s DefunctFlag) = 1.
Proof. intros s D C. unfold step. rewrite D, C. unfold send_verdict. proj. split; reflexivity. Qed.
Print Assumptions C44_failed_defunct.

Theorem C44_owner_notified : forall s, log (step s OwnerReturn) = ENotified :: log s.
Proof. intros s. unfold step. proj. reflexivity. Qed.
Print Assumptions C44_owner_notified.

Theorem C44_failed_round_instances :
  let s := run (init 2 4 2) [Borrow; SendCheck 0; SendReg 0 7; HbSend 50] in
  let s' := run s hb_failed in
  defunct s' = true /\ closed s' = true /\ reqs s' = [] /\ hd_error (log s') = Some ENotified /\ erroring s' = [50; 7].
Proof. vm_compute. repeat split. Qed.
Print Assumptions C44_failed_round_instances.

(* at the in_flight threshold no heartbeat is sent and nothing changes (the future fails, see run()) *)
Theorem C44_at_threshold_not_sent : forall s cb, in_flight s <? max_id s = false ->
  let s' := step s (HbSend cb) in in_flight s' = in_flight s /\ free s' = free s /\ reqs s' = reqs s /\ log s' = EHbCap :: log s.
Proof. intros s cb C. unfold step. rewrite C. proj. repeat split; reflexivity. Qed.
Print Assumptions C44_at_threshold_not_sent.


(* the wait loop gives every HeartbeatFuture of the round the SAME deadline (idle_heartbeat_timeout after the wait phase began),
   whatever the number of futures, their order and how long the earlier ones took: a reply processed within the timeout is never
   reported as a failure, a later or missing one always is *)
Theorem C44_shared_deadline : forall T arrivals i a, 0 <= T -> nth_error arrivals i = Some a ->
  nth_error (wait_phase T arrivals) i = Some (in_time T a).
Proof. intros T arrivals i a HT E. rewrite (wait_phase_spec T arrivals HT). exact (map_nth_error _ _ _ E). Qed.
Print Assumptions C44_shared_deadline.

(* no state is carried from one round to the next: each round is judged on its own replies only *)
Theorem C44_rounds_independent : forall T rs k r, 0 <= T -> nth_error rs k = Some r ->
  nth_error (rounds T rs) k = Some (map (in_time T) r).
Proof. intros T rs k r HT E. unfold rounds. rewrite (map_nth_error _ _ _ E). rewrite (wait_phase_spec T r HT). reflexivity. Qed.
Print Assumptions C44_rounds_independent.


(* every connection a holder listed at the start of the round is visited exactly once, in order, and treated according to its own
   state -- also when an earlier one in the list is dead and its owner drops it while the round is running *)
Theorem C44_every_listed_connection_visited : forall listed i c, nth_error listed i = Some c ->
  nth_error (send_phase listed) i = Some (decide c) /\ length (send_phase listed) = length listed.
Proof. intros listed i c E. unfold send_phase. split; [exact (map_nth_error _ _ _ E)|apply map_length]. Qed.
Print Assumptions C44_every_listed_connection_visited.

Example C44_nonvacuous_deadline : wait_phase 100 [Some 40; Some 60; Some 90; None; Some 10; Some 101] = [true; true; true; false; true; false].
Proof. reflexivity. Qed.

Example C44_nonvacuous :
  let s := run (init 2 3 2) ([Borrow; SendCheck 0; SendReg 0 7] ++ hb_ok 1 1001 ++ [RecvBegin 0; RecvPop 0 DOk; ReturnConn; RecvEnd; HbSkipBusy]
                             ++ hb_ok 1 1002 ++ [HbSend 1003] ++ hb_failed) in
  in_flight s = 0 /\ defunct s = true /\ free s = [1] /\ invoked 1002 (log s) = 1.
Proof. vm_compute. repeat split. Qed.
