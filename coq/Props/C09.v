(* C09 -- multiplexed requests never receive another request's response.
   Model: Model/Conn.v (one op per lock region / unlocked statement group; granularity audited on the source by
   lib/vf/conn_audit.py).  `reach n m t ops` = the state after ANY op sequence `ops` of ANY length from the initial
   connection (n ids pre-allocated, max_request_id = m, orphan threshold t).
   `raced` is the model's flag for "a response overtook ResponseFuture._on_timeout between its unlocked pop and its
   locked orphan region (or the other way round)": that interleaving really breaks the statement (C09_full_refuted,
   finding C09-1) and is excluded by hypothesis in the partial theorems. *)
From Coq Require Import ZArith List Bool Lia.
From Verif Require Import Conn Conn_lemmas Conn_inv Conn_step C09_proofs.
Import ListNotations.
Local Open Scope Z_scope.

(* free ids, outstanding requests, orphaned ids, paging-session streams and ids held by callers (borrowed, unsent /
   between two regions) are pairwise disjoint, without repetition, and all within 0..highest <= max_request_id *)
Theorem C09_unique_ids : forall n m t ops, 0 <= n -> n - 1 <= m ->
  let s := reach n m t ops in raced s = false ->
  NoDup (free s ++ keys (reqs s) ++ orphans s ++ keys (cps s) ++ keys (ghost s))
  /\ (forall x, In x (free s ++ keys (reqs s) ++ orphans s ++ keys (cps s) ++ keys (ghost s)) -> 0 <= x <= highest s)
  /\ highest s <= max_id s.
Proof. intros n m t ops A B s R. exact (good_unique _ (reach_good n m t ops A B R)). Qed.
Print Assumptions C09_unique_ids.

(* every id 0..highest is somewhere: nothing is lost *)
Theorem C09_no_id_lost : forall n m t ops x, 0 <= n -> n - 1 <= m ->
  let s := reach n m t ops in raced s = false -> 0 <= x <= highest s ->
  In x (free s ++ keys (reqs s) ++ orphans s ++ keys (cps s) ++ keys (ghost s)).
Proof. intros n m t ops x A B s R I. exact (good_complete _ x (reach_good n m t ops A B R) I). Qed.
Print Assumptions C09_no_id_lost.

(* in_flight is exactly the number of ids in use that still carry a unit, plus the explicitly counted units *)
Theorem C09_in_flight_accounting : forall n m t ops, 0 <= n -> n - 1 <= m ->
  let s := reach n m t ops in raced s = false -> in_flight s = units s.
Proof. intros n m t ops A B s R. exact (g_units _ (reach_good n m t ops A B R)). Qed.
Print Assumptions C09_in_flight_accounting.

(* an id handed out by get_request_id is never beyond max_request_id, and is not in use by anybody else *)
Theorem C09_bound : forall n m t ops i s', 0 <= n -> n - 1 <= m ->
  let s := reach n m t ops in raced s = false -> get_id s = (Some i, s') ->
  0 <= i <= max_id s /\ ~ In i (keys (reqs s) ++ orphans s ++ keys (cps s) ++ keys (ghost s)).
Proof.
  intros n m t ops i s' A B s R E. subst s. set (s := reach n m t ops) in *. pose proof (reach_good n m t ops A B R) as G. fold s in G.
  destruct (good_getid _ _ _ G E) as [[X Y]|[X Y]]; split; auto.
  - intros I. apply Y. unfold all_ids. apply in_or_app. right. exact I.
  - intros I. pose proof (proj1 (good_unique _ G)) as N. unfold all_ids in N.
    unfold get_id in E. destruct (free s) as [|j f] eqn:F; [try rewrite F in X; exact (False_ind _ X)|].
    injection E as <- _. cbn in N. apply NoDup_cons_iff in N. apply (proj1 N). apply in_or_app. right. exact I.
Qed.
Print Assumptions C09_bound.

(* `assert new_request_id <= self.max_request_id` can only fire when all max_request_id+1 ids are in use *)
Theorem C09_assert_only_when_all_ids_in_use : forall n m t ops s', 0 <= n -> n - 1 <= m ->
  let s := reach n m t ops in raced s = false -> get_id s = (None, s') ->
  free s = [] /\ highest s = max_id s
  /\ (forall x, 0 <= x <= max_id s -> In x (keys (reqs s) ++ orphans s ++ keys (cps s) ++ keys (ghost s))).
Proof. intros n m t ops s' A B s R E. exact (good_assert_only_when_full _ _ (reach_good n m t ops A B R) E). Qed.
Print Assumptions C09_assert_only_when_all_ids_in_use.

(* once every sent request has been answered (nothing outstanding, orphaned, held, in delivery, no unit owed or leaked):
   in_flight = 0 and exactly the ids 0..highest are free again *)
Theorem C09_quiescent : forall n m t ops, 0 <= n -> n - 1 <= m ->
  let s := reach n m t ops in raced s = false ->
  reqs s = [] -> orphans s = [] -> ghost s = [] -> cps s = [] -> erroring s = [] -> cur s = None ->
  owed s = 0 -> ks_pending s = 0 -> leaked s = 0 -> spurious s = 0 ->
  in_flight s = 0 /\ NoDup (free s) /\ (forall x, In x (free s) <-> 0 <= x <= highest s).
Proof. intros n m t ops A B s R. exact (good_quiescent _ (reach_good n m t ops A B R)). Qed.
Print Assumptions C09_quiescent.

(* ---- the full statement (no exclusion of the timeout/response race) is false in the faithful model ---- *)
Definition C09_full_statement : Prop := forall n m t ops, 0 <= n -> n - 1 <= m ->
  let s := reach n m t ops in NoDup (free s ++ keys (reqs s) ++ orphans s ++ keys (cps s) ++ keys (ghost s)).

(* Borrow, send on stream 0; _on_timeout pops the callback (no lock); the response arrives: not an orphan, not in
   _requests -> request_ids.append(0); _on_timeout now orphans 0: stream 0 is free AND orphaned, in_flight stays 1 *)
Definition C09_race_witness : list op :=
  [Borrow; SendCheck 0; SendReg 0 7; TimeoutPop 0 true; RecvBegin 0; RecvPop 0 DOk; TimeoutOrphan 0].

Theorem C09_full_refuted : ~ C09_full_statement.
Proof.
  intros F. specialize (F 1 3 2 C09_race_witness ltac:(lia) ltac:(lia)). vm_compute in F.
  inversion F as [|x l N _]. apply N. left. reflexivity.
Qed.
Print Assumptions C09_full_refuted.

Theorem C09_race_leaks_in_flight :
  let s := reach 1 3 2 C09_race_witness in reqs s = [] /\ wire s = [] /\ in_flight s = 1 /\ free s = [0] /\ orphans s = [0].
Proof. vm_compute. repeat split. Qed.
Print Assumptions C09_race_leaks_in_flight.

(* with paging sessions alive (their streams are in use but not counted by in_flight) the assert CAN fire *)
Theorem C09_assert_can_fire_with_paging_sessions :
  assert_failed (reach 2 2 2 [Borrow; SendCheck 0; SendReg 0 7; Borrow; SendCheck 1; SendReg 1 8;
                              RecvBegin 0; RecvPop 0 DOk; CpNew 9; ReturnConn; RecvEnd;
                              RecvBegin 1; RecvPop 1 DOk; CpNew 10; ReturnConn; RecvEnd; Borrow; Borrow]) = true.
Proof. vm_compute. reflexivity. Qed.
Print Assumptions C09_assert_can_fire_with_paging_sessions.

Example C09_nonvacuous :
  let s := reach 2 3 2 [Borrow; SendCheck 0; SendReg 0 7; Borrow; SendCheck 1; SendReg 1 8; Borrow; TimeoutPop 0 true;
                        TimeoutOrphan 0; RecvBegin 1; RecvPop 1 DOk; ReturnConn; RecvEnd] in
  raced s = false /\ free s = [1] /\ orphans s = [0] /\ keys (ghost s) = [2] /\ in_flight s = 2 /\ highest s = 2.
Proof. vm_compute. repeat split. Qed.
