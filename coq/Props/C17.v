(* C17 -- Hosts are tried in query-plan order and exhaustion is reported.
   Model: Model/FutB.v (ResponseFuture.send_request/_query over a plan and per-host pool states, _errors, explicit
   host target), tied to cassandra/cluster.py by per-step correspondence on the real class (checks/C17.py).
   All theorems hold for every configuration, every retry-policy oracle and every history of responses, executor
   task runs, speculative timer firings and pool-state changes (any length, any order). *)
From Coq Require Import ZArith List Bool.
From Verif Require Import PyBase FutbProto FutB FutB_lemmas FutB_steps FutB_origin C17_proofs C17_cover.
Import ListNotations.
Local Open Scope Z_scope.

(* one send_request: skips a prefix of the remaining plan whose pools are unusable, recording each reason in _errors
   (`walked`, see FutB_lemmas.v: events = one ErrSet per skipped host, in plan order, then at most one Sent to the first
   usable host; the remaining plan is what follows it), and the reason stored is the one for that pool state *)
Theorem C17_order : forall s b s' ev, send_request s b = (s', ev) ->
  walked s (plan s) b s' ev /\ (forall x e, In (ErrSet x e) ev -> lookup (errors s') x = reason (pool_of s x)).
Proof. exact send_request_order. Qed.
Print Assumptions C17_order.

(* the client timeout elapsing while unusable hosts are skipped (time passes inside a slow borrow_connection): the walk stops
   right there -- the rest of the plan stays untried and NO NoHostAvailable is reported; the request times out (once a
   connection was ever borrowed) or the timeout handler re-schedules itself *)
Theorem C17_timeout_stops_the_walk : forall s b s' ev rest, send_request s b = (s', ev) ->
  plan s' = rest -> rest <> [] -> fin_exc s' <> Some XNoHost \/ fin_exc s = Some XNoHost.
Proof.
  intros s b s' ev rest H Pr Rn.
  destruct (walk_exc _ _ _ _ H) as [G|[(x & G & N)|(G & Q)]].
  - destruct (fin_exc s) as [[]|] eqn:F; try (left; rewrite G; discriminate). right; reflexivity.
  - left. rewrite G. intros E. inversion E; subst. apply N; reflexivity.
  - exfalso. rewrite Q in Pr. apply Rn. symmetry. exact Pr.
Qed.
Print Assumptions C17_timeout_stops_the_walk.

(* over a whole history: the plan is consumed front to back, and the hosts that got a message because the plan was
   walked (initial send, RETRY_NEXT_HOST, speculative execution, fall-through after an unusable pool) form, in the order
   sent, a subsequence of the load balancer's plan *)
Theorem C17_order_history : forall c lb target pl cl idem hasp maxa ks ops s evs, no_page ops = true ->
  exec c (init lb target pl cl idem hasp maxa ks) ops = (s, evs) ->
  consumed s ++ plan s = make_plan lb target /\ subseq (plan_sends evs) (consumed s)
  /\ subseq (plan_sends evs) (make_plan lb target).
Proof. intros c lb target pl cl idem hasp maxa ks. exact (order_history c lb target pl cl idem hasp maxa ks). Qed.
Print Assumptions C17_order_history.

(* a host of a duplicate-free plan gets at most one plan-walk message ... *)
Theorem C17_no_repeat : forall c lb target pl cl idem hasp maxa ks ops s evs, no_page ops = true ->
  exec c (init lb target pl cl idem hasp maxa ks) ops = (s, evs) ->
  NoDup (make_plan lb target) -> NoDup (plan_sends evs).
Proof. intros c lb target pl cl idem hasp maxa ks. exact (no_repeat c lb target pl cl idem hasp maxa ks). Qed.
Print Assumptions C17_no_repeat.

(* ... every other message is the one of the executor task just run: the same-host retry, the PREPARE after UNPREPARED,
   or the re-send after PREPARED (C19) ... *)
Theorem C17_other_sends_are_tasks : forall c s o s' ev h m cz, step c s o = (s', ev) -> In (Sent h m cz) ev ->
  plan_msg m cz \/ (exists k t, o = Run k /\ nth_error (queue s) k = Some t /\ task_sends s t h m cz
                            /\ pool_of s (task_host t) = PHealthy)
  \/ (* executor-first schedule: the retry task ran inside the step that took the decision *)
     (exists i k tag dcl reuse a, o = Resp i (RRetryable k tag) /\ inline_retry c = true /\ nth_error (attempts s) i = Some a /\
        task_sends (bump_counters (tick_consult (set_attempts s (mark_done i (attempts s)))) dcl) (TRetry reuse (a_host a)) h m cz
        /\ pool_of s (a_host a) = PHealthy).
Proof. exact step_sent. Qed.
Print Assumptions C17_other_sends_are_tasks.

(* ... and a same-host retry task for h exists only because the policy answered RETRY to a failure reported by h *)
Theorem C17_retry_task_needs_decision : forall c s o s' ev t, step c s o = (s', ev) -> In t (queue s') ->
  In t (queue s) \/ exists i r a, o = Resp i r /\ nth_error (attempts s) i = Some a /\ a_done a = false /\
     (if a_prep a then t = TAfterPrepare (a_host a) r else enqueued_by (a_host a) r ev t).
Proof. exact step_queue. Qed.
Print Assumptions C17_retry_task_needs_decision.

(* NoHostAvailable is raised only by a send_request that ran off the end of the plan (never by the branch that notices the
   client timeout while walking: that one calls _on_timeout and returns).  XNoHost has no payload: NoHostAvailable.errors IS the
   future's live _errors dict, i.e. `errors` of the current state. *)
Theorem C17_exhaustion : forall c s o s' ev, step c s o = (s', ev) -> fin_exc s' = Some XNoHost ->
  fin_exc s = Some XNoHost \/ plan s' = [].
Proof. exact nohost_only_when_exhausted. Qed.
Print Assumptions C17_exhaustion.

(* every host ever mentioned -- message, attempt, executor task, _errors key (hence every NoHostAvailable.errors key) --
   was taken from the plan *)
(* "listing every attempted host" (first page fetch): when a request that has no outcome yet fails with NoHostAvailable, every
   host of the plan is a key of the live _errors (= NoHostAvailable.errors) right after that step, or still has something open
   (an unanswered attempt of a speculative execution, a queued executor task) *)
Theorem C17_exhaustion_lists_every_host : forall c lb target pl cl idem hasp maxa ks ops s evs o s' ev,
  no_page ops = true -> is_next_page o = false ->
  exec c (init lb target pl cl idem hasp maxa ks) ops = (s, evs) -> fin_res s = None -> fin_exc s = None ->
  step c s o = (s', ev) -> fin_exc s' = Some XNoHost ->
  forall h, In h (make_plan lb target) -> In h (keys (errors s')) \/ In h (open_hosts s').
Proof. exact exhaustion_covers. Qed.
Print Assumptions C17_exhaustion_lists_every_host.

Theorem C17_errors_only_plan_hosts : forall c lb target pl cl idem hasp maxa ks ops s evs x,
  exec c (init lb target pl cl idem hasp maxa ks) ops = (s, evs) ->
  In x (hosts_of s evs) -> In x (consumed s) /\ (no_page ops = true -> In x (make_plan lb target)).
Proof.
  intros c lb target pl cl idem hasp maxa ks ops s evs x H Hx. split.
  - exact (mentioned_consumed c lb target pl cl idem hasp maxa ks ops s evs x H Hx).
  - intros N. exact (mentioned_in_plan c lb target pl cl idem hasp maxa ks ops s evs x N H Hx).
Qed.
Print Assumptions C17_errors_only_plan_hosts.

(* paged results: start_fetching_next_page (when a paging state is there) is exactly one send_request over a FRESH plan --
   the explicit target host again, or the load balancer's plan p for this fetch -- from a state whose outcome is cleared *)
Theorem C17_next_page_fresh_plan : forall c s p, paging s = true ->
  step c s (NextPage p) = send_request (page_start c s p) true /\
  plan (page_start c s p) = make_plan p (tgt c) /\ fin_res (page_start c s p) = None /\ fin_exc (page_start c s p) = None /\
  pools (page_start c s p) = pools s /\ errors (page_start c s p) = errors s /\ retries (page_start c s p) = retries s.
Proof.
  intros c s p P. cbn [step]. rewrite P. destruct (page_start_fields c s p) as (A & _ & _ & B & C & D & _ & E & _ & _ & F & _).
  repeat split; assumption.
Qed.
Print Assumptions C17_next_page_fresh_plan.

(* every page fetch (any stretch of history without a further NextPage, from ANY state, e.g. the one page_start produced) walks
   its plan front to back: what was consumed is a prefix of that plan, the plan-walk messages follow its order, and no host of a
   duplicate-free plan gets two of them *)
Theorem C17_order_every_page : forall c ops s s' evs, no_page ops = true -> exec c s ops = (s', evs) ->
  plan_move s s' evs /\ (NoDup (plan s) -> NoDup (plan_sends evs)).
Proof.
  intros c ops s s' evs N H. split; [exact (exec_plan_move c ops s s' evs N H)|exact (page_no_repeat c ops s s' evs N H)].
Qed.
Print Assumptions C17_order_every_page.

(* DSE graph analytics re-plan (master first): still duplicate-free *)
Theorem C17_replan_master_nodup : forall m p, NoDup p -> NoDup (replan_master m p) /\ (forall x, In x (replan_master m p) <-> x = m \/ In x p).
Proof. exact replan_master_ok. Qed.
Print Assumptions C17_replan_master_nodup.

(* executor-first schedule (the executor runs the retry before _handle_retry_decision records the failure): the failed host
   is recorded AFTER the plan was exhausted, and NoHostAvailable -- whose errors are the live _errors -- still lists it *)
Example C17_executor_first_lists_failed_host :
  let c := {| pol := scripted [(DNextHost, None)]; fut_ps := None; known := []; pv := 4; tgt := None; inline_retry := true |} in
  let s0 := init [0; 1] None [(0, PHealthy); (1, PMissing)] (Some 1) false false 0 None in
  let '(s, evs) := exec c s0 [Start; Resp 0%nat (RRetryable KOverloaded 7)] in
  fin_exc s = Some XNoHost /\ errors s = [(1, EDown); (0, EResp KOverloaded 7)] /\
  evs = [Sent 0 (MOrig (Some 1)) CPlan; Consult 0 0 KOverloaded 7 0 (Some 1) DNextHost None; ErrSet 1 EDown;
         ErrSet 0 (EResp KOverloaded 7)].
Proof. vm_compute. repeat split. Qed.

(* explicit host target: every message of every page fetch goes to that host *)
Theorem C17_target_only : forall c lb pl cl idem hasp maxa ks ops s evs h, tgt c = Some h ->
  exec c (init lb (Some h) pl cl idem hasp maxa ks) ops = (s, evs) ->
  forall h' m cz, In (Sent h' m cz) evs -> h' = h.
Proof. intros c lb pl cl idem hasp maxa ks ops s evs h T H. exact (target_only c lb pl cl idem hasp maxa ks h ops s evs T H). Qed.
Print Assumptions C17_target_only.

(* non-vacuity: plan [2;0;1], host 2 shut down, host 0 healthy; a read timeout from 0 answered RETRY_NEXT_HOST moves on
   to host 1, whose pool is missing: NoHostAvailable lists 2 (skipped), 0 (failed) and 1 (skipped) *)
Example C17_nonvacuous :
  let c := {| pol := scripted [(DNextHost, None)]; fut_ps := None; known := []; pv := 4; tgt := None; inline_retry := false |} in
  let s0 := init [2; 0; 1] None [(0, PHealthy); (1, PMissing); (2, PShutdown)] (Some 1) false false 0 None in
  let '(s, evs) := exec c s0 [Start; Resp 0%nat (RRetryable KReadTimeout 7); Run 0%nat] in
  plan_sends evs = [0] /\
  fin_exc s = Some XNoHost /\ errors s = [(2, EShutdown); (0, EResp KReadTimeout 7); (1, EDown)] /\ consumed s = [2; 0; 1].
Proof. vm_compute. repeat split. Qed.
