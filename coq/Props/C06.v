From Coq Require Import ZArith List.
From Verif Require Import Crc.
Theorem C06_stub : CRC24_LENGTH = 3%Z. Proof. reflexivity. Qed.
Print Assumptions C06_stub.
