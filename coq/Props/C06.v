(* C06 -- protocol v5 segments are reassembled exactly and corruption is detected.
   Model: Model/Crc.v, Model/Segment.v (segment.py + the checksumming path of Connection.process_io_buffer, after the two
   repairs), on top of Model/Stream.v.  The compressor pair is abstract: any functions with decompress (compress x) |x| = x. *)
From Coq Require Import ZArith List Bool Lia.
From Verif Require Import Crc Stream Segment Crc_proofs C05_proofs Seg_bytes C06_proofs C06_flip.
From Verif Require SegmentToy.   (* only so that the correspondence helper is built with this cone; no theorem uses it *)
Import ListNotations.
Local Open Scope Z_scope.

Definition codec_ok (compress : list Z -> list Z) (decompress : list Z -> Z -> list Z) : Prop :=
  (forall x, decompress (compress x) (blen x) = x) /\ (forall x, Forall byte_ok x -> Forall byte_ok (compress x)).

(* Any frames, cut into segment payloads in ANY way (several frames per segment, frames spanning segments, payloads of any
   size up to 128 KiB - 1, compressed or left uncompressed by the sender's rule), the byte stream split into reads in ANY way:
   exactly those frames are delivered, in order, and both buffers end empty. *)
Theorem C06_roundtrip : forall compression compress decompress, codec_ok compress decompress ->
  forall (segs : list seg) (fs : list frame) (chunks : list (list Z)),
  segs_ok segs -> Forall wf fs -> payloads segs = frames_bytes fs ->
  concat chunks = wire compression compress segs ->
  exists c, run_cfeed compression decompress cinit chunks = (CLive [] [] c, map deliver fs).
Proof. intros compression compress decompress [H1 H2]. apply roundtrip; assumption. Qed.
Print Assumptions C06_roundtrip.

(* The driver's own encoder (SegmentCodec.encode: one self-contained segment per message, messages > 128 KiB - 1 split into
   several segments), any message sizes, any chunking. *)
Theorem C06_roundtrip_messages : forall compression compress decompress, codec_ok compress decompress ->
  forall (fs : list frame) (chunks : list (list Z)),
  Forall wf fs -> Forall (fun f => Forall byte_ok (enc f)) fs ->
  concat chunks = concat (map (fun f => encode compression compress (enc f)) fs) ->
  exists c, run_cfeed compression decompress cinit chunks = (CLive [] [] c, map deliver fs).
Proof. intros compression compress decompress [H1 H2]. apply roundtrip_messages; assumption. Qed.
Print Assumptions C06_roundtrip_messages.

(* No spurious checksum (or any other) error on any split of a valid stream. *)
Theorem C06_no_spurious_crc : forall compression compress decompress, codec_ok compress decompress ->
  forall (segs : list seg) (fs : list frame) (chunks : list (list Z)),
  segs_ok segs -> Forall wf fs -> payloads segs = frames_bytes fs ->
  concat chunks = wire compression compress segs ->
  forall r, ~ In (Defunct r) (snd (run_cfeed compression decompress cinit chunks)).
Proof.
  intros compression compress decompress Hc segs fs chunks H1 H2 H3 H4 r Hin.
  destruct (C06_roundtrip compression compress decompress Hc segs fs chunks H1 H2 H3 H4) as (c & E).
  rewrite E in Hin. simpl in Hin. apply in_map_iff in Hin. destruct Hin as ([[d h] b] & F & _). discriminate.
Qed.
Print Assumptions C06_no_spurious_crc.

(* One flipped bit anywhere in the header or its CRC-24 (3- or 5-byte header), any payload, any chunking, anything after it:
   the connection is failed with a CRC mismatch and nothing is delivered. *)
Theorem C06_detects_header_flip : forall compression compress decompress, codec_ok compress decompress ->
  forall p sc (k : nat) more chunks fb c,
  seg_ok p -> (k < 8 * hlc compression)%nat -> parse1 fb = NeedMore ->
  concat chunks = flip_bit k (encode_segment compression compress p sc) ++ more ->
  run_cfeed compression decompress (CLive [] fb c) chunks = (CDead, [Defunct R_CRC]).
Proof.
  intros compression compress decompress [H1 H2] p sc k more chunks fb c Hok Hk Hfb Hc.
  eapply flip_detected; try eassumption.
  rewrite (encode_segment_length compression compress decompress H1 H2). lia.
Qed.
Print Assumptions C06_detects_header_flip.

(* One flipped bit anywhere in the payload or its CRC-32, payload of ANY length: same. *)
Theorem C06_detects_payload_flip : forall compression compress decompress, codec_ok compress decompress ->
  forall p sc (k : nat) more chunks fb c,
  seg_ok p -> (8 * hlc compression <= k < 8 * length (encode_segment compression compress p sc))%nat -> parse1 fb = NeedMore ->
  concat chunks = flip_bit k (encode_segment compression compress p sc) ++ more ->
  run_cfeed compression decompress (CLive [] fb c) chunks = (CDead, [Defunct R_CRC]).
Proof.
  intros compression compress decompress [H1 H2] p sc k more chunks fb c Hok Hk Hfb Hc.
  eapply flip_detected; try eassumption. lia.
Qed.
Print Assumptions C06_detects_payload_flip.

(* The algebra behind it.  CRC-24 as computed by compute_crc24: a single flipped bit of the header always changes it ... *)
Theorem C06_crc24_single_bit : forall (hl : nat) data k, (hl = 3 \/ hl = 5)%nat -> 0 <= data -> 0 <= k < 8 * Z.of_nat hl ->
  compute_crc24 (Z.lxor data (2 ^ k)) hl <> compute_crc24 data hl.
Proof. exact crc24_flip. Qed.
Print Assumptions C06_crc24_single_bit.

(* ... and CRC-32: changing one byte (in any way) of a payload of any length always changes it. *)
Theorem C06_crc32_single_byte : forall pre b b' post v, 0 <= v < 2 ^ 32 -> Forall byte_ok pre -> byte_ok b -> byte_ok b' ->
  Forall byte_ok post -> b <> b' -> compute_crc32 (pre ++ b :: post) v <> compute_crc32 (pre ++ b' :: post) v.
Proof. exact crc32_detects. Qed.
Print Assumptions C06_crc32_single_byte.

(* The framing switch of the handshake: whichever answer the server gives to STARTUP (READY, or AUTHENTICATE followed later by
   AUTH_SUCCESS), a v5 connection reads segments in the compressed format iff compression was announced in STARTUP -- the
   format the peer writes them in -- and the choice does not change afterwards; before v5 no segment codec is installed. *)
Theorem C06_codec_follows_negotiation : forall (negotiated : bool) (r : hreply), r <> RAuthSuccess ->
  hs_codec (on_reply true r (hs_init negotiated)) = Some negotiated /\
  hs_codec (on_reply true RAuthSuccess (on_reply true r (hs_init negotiated))) = Some negotiated /\
  hs_codec (on_reply false r (hs_init negotiated)) = None.
Proof. intros [|] [| |] H; try congruence; repeat split; reflexivity. Qed.
Print Assumptions C06_codec_follows_negotiation.

(* ... hence what the peer sends after the switch (any frames, any segmentation, any chunking), starting with AUTH_SUCCESS on
   an authenticated connection, is reassembled exactly and without any checksum error. *)
Theorem C06_roundtrip_after_handshake : forall compress decompress, codec_ok compress decompress ->
  forall (negotiated : bool) (r : hreply) (c : bool), r <> RAuthSuccess ->
  hs_codec (on_reply true r (hs_init negotiated)) = Some c ->
  forall (segs : list seg) (fs : list frame) (chunks : list (list Z)),
  segs_ok segs -> Forall wf fs -> payloads segs = frames_bytes fs ->
  concat chunks = wire negotiated compress segs ->
  exists c', run_cfeed c decompress cinit chunks = (CLive [] [] c', map deliver fs).
Proof.
  intros compress decompress Hc negotiated r c Hr Hcodec segs fs chunks H1 H2 H3 H4.
  destruct (C06_codec_follows_negotiation negotiated r Hr) as (E & _). rewrite E in Hcodec. inversion Hcodec; subst c.
  eapply C06_roundtrip; eassumption.
Qed.
Print Assumptions C06_roundtrip_after_handshake.

(* Non-vacuity: the identity pair is a codec (every segment is then "left uncompressed" under negotiated compression);
   two frames in three segments (one frame spanning two segments, 5-byte headers), read one byte at a time; and a flipped bit. *)
Definition id_c (x : list Z) : list Z := x.
Definition id_d (x : list Z) (_ : Z) : list Z := x.
Definition ex6_frames : list frame := [(128, mkH 5 0 7 8 3, [1; 2; 3]); (128, mkH 5 0 (-1) 12 1, [9])].
Definition ex6_bytes : list Z := concat (map enc ex6_frames).
Definition ex6_segs : list seg := [(firstn 5 ex6_bytes, true); (firstn 9 (skipn 5 ex6_bytes), false); (skipn 14 ex6_bytes, true)].
Definition ex6_stream : list Z := wire true id_c ex6_segs.
Example C06_nonvacuous :
  codec_ok id_c id_d /\ segs_ok ex6_segs /\ Forall wf ex6_frames /\ payloads ex6_segs = frames_bytes ex6_frames /\
  run_cfeed true id_d cinit (map (fun b => [b]) ex6_stream) = (CLive [] [] true, map deliver ex6_frames) /\
  run_cfeed true id_d cinit (map (fun b => [b]) (flip_bit 100 ex6_stream)) = (CDead, [Defunct R_CRC]).
Proof.
  split; [split; intros; [reflexivity|assumption]|].
  split. { repeat constructor; vm_compute; intuition discriminate. }
  split. { repeat constructor; vm_compute; intuition discriminate. }
  split; [reflexivity|]. split; vm_compute; reflexivity.
Qed.

(* ------------------------------------------------------------------ tie (T): the functions REGENERATED from
   cassandra/segment.py (Gen/SegmentGen.v, rewritten from the working tree on every run) are the model's functions.
   compute_crc24, SegmentCodec.encode_header, SegmentCodec.decode_header and SegmentHeader.segment_length of the hand
   model used above are, for every input, what the source says now; the statements are in Proofs/C06_bridge.v. *)
Require Verif.Gen.SegmentGen Verif.Model.Crc24 Verif.Proofs.SegmentCrc_proofs Verif.Proofs.C06_bridge.

Theorem C06_source_crc24_is_model : forall data len,
  SegmentGen.compute_crc24 data len = compute_crc24 data (Z.to_nat len).
Proof. exact C06_bridge.source_crc24_is_model. Qed.
Print Assumptions C06_source_crc24_is_model.

(* so the single-bit guarantee holds of the source's compute_crc24 itself (header lengths 3 and 5) *)
Theorem C06_source_crc24_single_bit : forall hl data k, (hl = 3 \/ hl = 5) -> 0 <= data -> 0 <= k < 8 * hl ->
  SegmentGen.compute_crc24 (Z.lxor data (2 ^ k)) hl <> SegmentGen.compute_crc24 data hl.
Proof.
  intros hl data k Hhl Hd Hk. rewrite !C06_bridge.source_crc24_is_model.
  apply crc24_flip; [destruct Hhl as [-> | ->]; [left|right]; reflexivity|exact Hd|].
  destruct Hhl as [-> | ->]; [change (Z.to_nat 3) with 3%nat|change (Z.to_nat 5) with 5%nat]; lia.
Qed.
Print Assumptions C06_source_crc24_single_bit.

Theorem C06_source_encode_header_is_model : forall c pl ul sc, pl <= MAX_PAYLOAD_LENGTH ->
  exists recs, SegmentGen.encode_header pl ul sc c (SegmentGen.header_length c) = PyBase.Ok recs /\
               concat (map Crc24.write_uint_le_model recs) = encode_header c pl ul sc.
Proof. exact C06_bridge.source_encode_header_is_model. Qed.
Print Assumptions C06_source_encode_header_is_model.

Theorem C06_source_encode_header_rejects : forall c pl ul sc hl, MAX_PAYLOAD_LENGTH < pl ->
  SegmentGen.encode_header pl ul sc c hl = PyBase.Raise.
Proof. exact C06_bridge.source_encode_header_rejects. Qed.
Print Assumptions C06_source_encode_header_rejects.

Theorem C06_source_decode_header_in_parse_seg : forall c decompress io,
  header_length_with_crc c <= blen io ->
  let hl := Z.to_nat (header_length c) in
  parse_seg c decompress io =
  match SegmentGen.decode_header c (SegmentGen.header_length c) (le_val (firstn hl io)) (le_val (firstn 3 (skipn hl io))) with
  | PyBase.Ok (pl, ul, _) => C06_bridge.seg_tail c decompress pl ul io
  | _ => SBad
  end.
Proof. exact C06_bridge.source_decode_header_in_parse_seg. Qed.
Print Assumptions C06_source_decode_header_in_parse_seg.

(* the source's header codec by itself: round trip and rejection of every CRC mismatch *)
Theorem C06_source_header_roundtrip : forall c pl ul sc,
  0 <= pl <= SegmentConsts.MAX_PAYLOAD_LENGTH -> 0 <= ul <= SegmentConsts.MAX_PAYLOAD_LENGTH ->
  exists hd crc, SegmentGen.encode_header pl ul sc c (SegmentGen.header_length c) =
                   PyBase.Ok [(hd, SegmentGen.header_length c); (crc, 3)] /\
                 0 <= hd < 2 ^ (8 * SegmentGen.header_length c) /\ 0 <= crc < 2 ^ 24 /\
                 SegmentGen.decode_header c (SegmentGen.header_length c) hd crc = PyBase.Ok (pl, (if c then ul else -1), sc).
Proof. exact SegmentCrc_proofs.header_roundtrip. Qed.
Print Assumptions C06_source_header_roundtrip.

Theorem C06_source_header_crc_mismatch : forall c hl hd crc, crc <> SegmentGen.compute_crc24 hd hl ->
  SegmentGen.decode_header c hl hd crc = PyBase.Raise.
Proof. exact SegmentCrc_proofs.decode_header_crc_mismatch. Qed.
Print Assumptions C06_source_header_crc_mismatch.
