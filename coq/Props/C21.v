(* C21 -- load-balancing plans reflect the live cluster membership.
   Model: Model/LBP.v (hand-written; tied to cassandra/policies.py by the step-by-step correspondence run of checks/C21.py).
   Quantification: EVERY history `evs` in which populate never forgets a host the policy already knows (`delivered`: populate
   hands over all hosts of the cluster; it is the first call -- Cluster.connect, add_execution_profile -- and Cluster.connect
   repeats it with the same list for the legacy policy; see C21_delivered_populate_first), every initial host location table `e`, every policy parameter (white list, local_dc
   given or inferred late from any contact-point list, used_hosts_per_remote_dc any integer), every set-iteration order `ord`
   and every rotation position (it is part of the state: histories contain MakePlan steps and any randint value).
   `members evs` is the abstract membership of DESIGN 4.0: populated / added / up minus down / removed. *)
From Coq Require Import ZArith List Bool.
From Verif Require Import LBP LBP_base_proofs C21_proofs TokenAware C22_proofs.
Import ListNotations.
Local Open Scope Z_scope.

(* the hypothesis `delivered` covers every history whose only populate is its first event, of any length *)
Theorem C21_delivered_populate_first : forall evs : list event,
  forallb (fun e => negb (is_populate e)) (tl evs) = true -> delivered evs.
Proof. exact populate_first_delivered. Qed.
Print Assumptions C21_delivered_populate_first.

(* no host twice, for RoundRobin, WhiteList and DCAware alike *)
Theorem C21_nodup : forall (b : base) (e : env) (evs : list event) (ord : list Z),
  delivered evs -> NoDup (b_plan (b_run b e evs) ord).
Proof. intros b e evs ord Hd. exact (b_plan_nodup b _ _ ord (b_run_inv b e evs Hd)). Qed.
Print Assumptions C21_nodup.

(* exactly the live hosts the policy does not call IGNORED *)
Theorem C21_exact : forall (b : base) (e : env) (evs : list event) (ord : list Z) (h : Z),
  delivered evs ->
  (In h (b_plan (b_run b e evs) ord) <-> members evs h = true /\ b_distance b (b_run b e evs) h <> IGNORED).
Proof. intros b e evs ord h Hd. exact (b_plan_exact b _ _ ord h (b_run_inv b e evs Hd)). Qed.
Print Assumptions C21_exact.

(* DC-aware: the plan is the local part then the remote part; the local part is exactly the live hosts at distance LOCAL,
   the remote part exactly the hosts at distance REMOTE (all of them live), and when the configured number is not
   negative no remote datacenter contributes more than used_hosts_per_remote_dc hosts *)
Theorem C21_dc_order : forall (local used : Z) (contact : list Z) (e : env) (evs : list event),
  delivered evs ->
  let s := fold_left dca_step evs (dca_init local used contact e) in
  dca_plan s = dca_local_part s ++ dca_remote_part s /\
  (forall h, In h (dca_local_part s) <-> members evs h = true /\ dca_distance s h = LOCAL) /\
  (forall h, In h (dca_remote_part s) <-> dca_distance s h = REMOTE) /\
  (forall h, dca_distance s h = REMOTE -> members evs h = true) /\
  (0 <= d_used s -> forall d, Nat.le (length (filter (fun h => dca_dc s h =? d) (dca_remote_part s))) (Z.to_nat (d_used s))).
Proof.
  intros local used contact e evs Hd s.
  pose proof (dca_inv_delivered local used contact e evs Hd) as HI. fold s in HI.
  split; [reflexivity|]. split; [exact (local_part_distance s _ HI)|]. split; [exact (remote_part_distance s _ HI)|].
  split; [exact (remote_live s _ HI)|exact (remote_part_bound s _ HI)].
Qed.
Print Assumptions C21_dc_order.

(* used_hosts_per_remote_dc is the constructor argument throughout *)
Theorem C21_used_constant : forall (local used : Z) (contact : list Z) (e : env) (evs : list event),
  d_used (fold_left dca_step evs (dca_init local used contact e)) = used.
Proof.
  intros local used contact e evs.
  assert (H : forall evs s, d_used (fold_left dca_step evs s) = d_used s).
  { induction evs0 as [|ev evs0 IH]; intros s; simpl; auto. rewrite IH.
    assert (Hup : forall s h, d_used (dca_on_up s h) = d_used s).
    { intros s0 h. unfold dca_on_up, dca_infer.
      destruct ((d_local s0 =? 0) && negb (host_dc s0 h =? 0) && mem h (d_endpoints s0)); simpl;
        match goal with |- context [if ?c then _ else _] => destruct c end; reflexivity. }
    assert (Hdown : forall s h, d_used (dca_on_down s h) = d_used s).
    { intros s0 h. unfold dca_on_down. destruct (mem h (bget (d_live s0) (dca_dc s0 h))); [|reflexivity].
      destruct (remove_host h (bget (d_live s0) (dca_dc s0 h))); reflexivity. }
    destruct ev; simpl; auto. rewrite Hup. simpl. apply Hdown. }
  rewrite H. reflexivity.
Qed.
Print Assumptions C21_used_constant.

(* the white-list policy never yields a host whose address is not among the RESOLVED addresses of the list as written
   (names, non-canonical spellings, several hosts per address) -- for every history whatsoever *)
Theorem C21_whitelist : forall (names : list Z) (resolve : Z -> list Z) (addr : Z -> Z)
                               (e : env) (evs : list event) (ord : list Z) (h : Z),
  In h (b_plan (b_run (BWL names resolve addr) e evs) ord) -> In (addr h) (flat_map resolve names).
Proof.
  intros names resolve addr e evs ord h H. unfold b_run in H.
  assert (E : forall evs s, fold_left (b_step (BWL names resolve addr)) evs (SRR s) =
                            SRR (fold_left (rr_step (b_wl (BWL names resolve addr))) evs s)).
  { induction evs0 as [|a evs0 IH]; intros; simpl; auto. }
  simpl in H. rewrite E in H. simpl in H. apply rr_plan_In in H.
  pose proof (rr_inv_run (b_wl (BWL names resolve addr)) evs rr_init _ (rr_inv_init _)) as [_ HM].
  apply HM in H. destruct H as [_ H]. simpl in H. apply mem_In. exact H.
Qed.
Print Assumptions C21_whitelist.

(* HostFilterPolicy over any built-in policy, for an arbitrary predicate: no duplicates, never an excluded host,
   and exactly the live hosts it does not call IGNORED *)
Theorem C21_filter : forall (pred : Z -> bool) (b : base) (e : env) (evs : list event) (ord : list Z),
  delivered evs ->
  let s := b_run b e evs in
  let p := hf_plan pred (b_plan s ord) in
  NoDup p /\
  (forall h, In h p -> pred h = true) /\
  (forall h, In h p <-> members evs h = true /\ hf_distance pred (b_distance b s) h <> IGNORED).
Proof.
  intros pred b e evs ord Hd s p.
  exact (hf_plan_facts pred (b_distance b s) (members evs) (b_plan s ord)
           (C21_nodup b e evs ord Hd) (fun h => C21_exact b e evs ord h Hd)).
Qed.
Print Assumptions C21_filter.

(* DefaultLoadBalancingPolicy over any built-in policy: without a usable target the child's plan unchanged; with one,
   the target first and then the child's plan without it, in the child's order; no duplicates; nothing of the child lost *)
Theorem C21_default : forall (target : option Z) (b : base) (e : env) (evs : list event) (ord : list Z),
  delivered evs ->
  let child := b_plan (b_run b e evs) ord in
  let p := df_plan target child in
  NoDup p /\
  (forall h, In h p <-> target = Some h \/ In h child) /\
  (forall t, target = Some t -> p = t :: remove_host t child) /\
  (target = None -> p = child).
Proof.
  intros target b e evs ord Hd child p. exact (df_plan_facts target child (C21_nodup b e evs ord Hd)).
Qed.
Print Assumptions C21_default.

(* TokenAwarePolicy over any built-in policy is itself a load-balancing policy: for routed and unrouted statements, any
   duplicate-free replica list in any order, any up flags that are only true for hosts the policy was told about (the cluster
   calls on_up/on_add before host.set_up() and set_down() before on_down/on_remove): no duplicates and exactly the live hosts
   that are not IGNORED -- in particular replicas that were NOT promoted (REMOTE, or not marked up yet) stay in the plan *)
Theorem C21_token_aware : forall (routed : bool) (up : Z -> bool) (order : list Z)
                                 (b : base) (e : env) (evs : list event) (ord : list Z),
  delivered evs -> NoDup order ->
  (forall h, In h order -> up h = true -> members evs h = true) ->
  let s := b_run b e evs in
  let p := ta_plan routed up (b_distance b s) order (b_plan s ord) in
  NoDup p /\ (forall h, In h p <-> members evs h = true /\ b_distance b s h <> IGNORED).
Proof.
  intros routed up order b e evs ord Hd Hn Hup s p. split.
  - unfold p. destruct routed; [apply ta_nodup; [exact Hn|]|]; exact (C21_nodup b e evs ord Hd).
  - intros h. split.
    + intros H. apply ta_nothing_added in H. destruct H as [H|[H1 [H2 H3]]].
      * exact (proj1 (C21_exact b e evs ord h Hd) H).
      * split; [exact (Hup h H1 H2)|]. fold s. rewrite H3. discriminate.
    + intros H. apply ta_nothing_lost. exact (proj2 (C21_exact b e evs ord h Hd) H).
Qed.
Print Assumptions C21_token_aware.

(* one on_up = one atomic step is an assumption about the code (the bucket is read, tested and written back inside one
   `with self._hosts_lock`; checks/C21.py audits that on the source).  With the lock held the two halves are on_up: *)
Theorem C21_locked_is_atomic : forall (s : dca_state) (h : Z),
  dca_on_up s h = dca_up_write (dca_infer s h) h (dca_up_read (dca_infer s h) h).
Proof. reflexivity. Qed.
Print Assumptions C21_locked_is_atomic.

(* ... and it is necessary: if another on_up runs between the read and the write-back, a host that was announced up and
   is LOCAL is in no plan (hosts 1 and 2 of the local DC come up together) *)
Theorem C21_unlocked_refuted : exists (s : dca_state) (h1 h2 : Z),
  let s' := dca_up_write (dca_on_up s h2) h1 (dca_up_read s h1) in
  dca_distance s' h2 = LOCAL /\ ~ In h2 (dca_plan s') /\ In h1 (dca_plan s').
Proof.
  exists (dca_init 1 0 [] {| e_dc := [(1, 1); (2, 1)]; e_rack := [] |}), 1, 2.
  vm_compute. split; [reflexivity|]. split; [|auto]. intros [H|[]]. discriminate.
Qed.
Print Assumptions C21_unlocked_refuted.

(* A plan drained while other threads deliver events: the local hosts are those of the state in which the plan was started
   (after history evs0), the remote DC names are copied after evs1 more events, the remote buckets are read after evs2 more.
   Every yielded host was live and LOCAL when the plan started or is live when the remote buckets are read; every host that was
   live and LOCAL at the start is yielded, and so is every host that is REMOTE at the end and whose DC already had a live
   host when the names were copied (local_dc not being re-inferred meanwhile).  No step can fail: the names come from a copy. *)
Theorem C21_plan_during_events : forall (local used : Z) (contact : list Z) (e : env) (evs0 evs1 evs2 : list event) (h : Z),
  delivered (evs0 ++ evs1 ++ evs2) ->
  let run := fun evs => fold_left dca_step evs (dca_init local used contact e) in
  let s0 := run evs0 in let s1 := run (evs0 ++ evs1) in let s2 := run (evs0 ++ evs1 ++ evs2) in
  (In h (dca_plan3 s0 s1 s2) ->
     (members evs0 h = true /\ dca_distance s0 h = LOCAL) \/ members (evs0 ++ evs1 ++ evs2) h = true) /\
  (d_local s1 = d_local s2 ->
     (members evs0 h = true /\ dca_distance s0 h = LOCAL) \/
     (dca_distance s2 h = REMOTE /\ bget (d_live s1) (dca_dc s2 h) <> []) ->
     In h (dca_plan3 s0 s1 s2)).
Proof.
  intros local used contact e evs0 evs1 evs2 h Hd run s0 s1 s2.
  assert (Hpre : forall a b, delivered (a ++ b) -> delivered a).
  { unfold delivered. intros a. generalize (fun _ : Z => false). induction a as [|x a IH]; intros L b H; simpl in *; auto.
    destruct H as [H1 H2]. split; [exact H1|]. apply (IH _ b). exact H2. }
  assert (H0 : dca_inv s0 (members evs0)) by (apply dca_inv_delivered; apply (Hpre _ _ Hd)).
  assert (H2 : dca_inv s2 (members (evs0 ++ evs1 ++ evs2))) by (apply dca_inv_delivered; exact Hd).
  split.
  - apply (plan3_sound s0 s1 s2 _ _ h H0 H2).
  - intros Hl Hc. apply (plan3_complete s0 s1 s2 _ _ h H0 H2 Hl Hc).
Qed.
Print Assumptions C21_plan_during_events.

(* without the copy a whole DC entry appearing meanwhile (first host of DC 2 comes up) makes the plan fail after its local part *)
Theorem C21_nocopy_refuted : exists (s1 : dca_state) (ev : event),
  dca_plan3_nocopy s1 s1 (dca_step s1 ev) (dca_step s1 ev) = None /\ dca_plan3 s1 s1 (dca_step s1 ev) = [1].
Proof.
  exists (dca_step (dca_init 1 1 [] {| e_dc := [(1, 1); (2, 2)]; e_rack := [] |}) (Up 1)), (Up 2). vm_compute. split; reflexivity.
Qed.
Print Assumptions C21_nocopy_refuted.

(* the hypotheses are satisfiable by a non-trivial history: three DCs interleaved in the initial list, a host without a
   datacenter, local_dc inferred late from contact point 1, a location change, a removal *)
Example C21_nonvacuous :
  let e := {| e_dc := [(0, 1); (1, 2); (2, 1); (3, 0); (4, 3)]; e_rack := [] |} in
  let evs := [Populate [0; 1; 2; 3; 4] [2; 0; 1; 3; 4] 1; MakePlan; Up 1; SetLocation 3 2 1; Down 0; Add 0; Remove 4] in
  delivered evs /\
  b_plan (b_run (BDCA 0 1 [1]) e evs) [] = [1; 3; 2] /\
  map (fun h => dist_code (b_distance (BDCA 0 1 [1]) (b_run (BDCA 0 1 [1]) e evs) h)) [0; 1; 2; 3; 4] = [-1; 0; 1; 0; -1].
Proof. intros e evs. split; [apply populate_first_delivered; reflexivity|]. split; vm_compute; reflexivity. Qed.

(* Cluster.connect in legacy mode: the same policy object is populated twice with the same host list *)
Example C21_nonvacuous_double_populate :
  let evs := [Populate [0; 1; 2] [0; 1; 2] 1; Populate [0; 1; 2] [2; 1; 0] 0; Down 1; MakePlan] in
  delivered evs /\ b_plan (b_run (BDCA 1 1 []) {| e_dc := [(0, 1); (1, 2); (2, 1)]; e_rack := [] |} evs) [] = [0; 2].
Proof.
  intros evs; split; [|vm_compute; reflexivity].
  unfold delivered, evs. cbn [ok_from pop_ok mstep].
  split; [intros h H; discriminate|]. split; [intros h H; exact H|]. split; [exact I|]. split; exact I.
Qed.
