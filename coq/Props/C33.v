(* C33 -- SortedSet and OrderedMap behave as their mathematical models.
   Models: Model/SortedSet.v (generic over the element order), Model/OrderedMap.v (generic over the key
   serializer); both are tied to cassandra/util.py by correspondence on every run (checks/C33.py). *)
From Coq Require Import ZArith List Bool Arith Sorted.
From Verif Require Import SortedSet OrderedMap C33_set_proofs C33_inst_proofs C33_map_proofs.
Import ListNotations.

(* Python's `<` / `==` on "a single comparable type": strict total order, == is equality of values *)
Definition total_order {A} (ltb eqb : A -> A -> bool) : Prop :=
  (forall x, ltb x x = false) /\
  (forall x y z, ltb x y = true -> ltb y z = true -> ltb x z = true) /\
  (forall x y, ltb x y = false -> ltb y x = false -> x = y) /\
  (forall x y, eqb x y = true <-> x = y).
(* what Python itself guarantees for a type that merely defines `<` without raising (e.g. nested sets) *)
Definition partial_order {A} (ltb eqb : A -> A -> bool) : Prop :=
  (forall x, ltb x x = false) /\
  (forall x y z, ltb x y = true -> ltb y z = true -> ltb x z = true) /\
  (forall x y, eqb x y = true <-> x = y).

(* the binary search loop always terminates within its fuel, on ANY list and ANY comparison *)
Theorem C33_find_insertion_terminates : forall A (ltb : A -> A -> bool) a x,
  exists i, find_insertion A ltb a x = Some i /\ i <= length a.
Proof. intros A ltb a x. apply find_insertion_total. Qed.
Print Assumptions C33_find_insertion_terminates.

(* on sorted input it returns the first index i with not (a[i] < x) *)
Theorem C33_find_insertion_first : forall A (ltb eqb : A -> A -> bool), total_order ltb eqb ->
  forall a x, Inv A ltb a ->
  exists i, find_insertion A ltb a x = Some i /\ i <= length a /\
    (forall j v, j < i -> nth_error a j = Some v -> ltb v x = true) /\
    (forall j v, i <= j -> nth_error a j = Some v -> ltb v x = false).
Proof. intros A ltb eqb [H1 [H2 [H3 H4]]] a x HI. apply (find_insertion_spec A ltb H2); assumption. Qed.
Print Assumptions C33_find_insertion_first.

(* THE refinement theorem: from the empty set (or any sorted state), after ANY sequence of operations, every
   intermediate state is strictly sorted and every state change / result is the one of a mathematical set
   (spec, stated with membership only) *)
Theorem C33_sortedset_partial : forall A (ltb eqb : A -> A -> bool), total_order ltb eqb ->
  forall ops s, Inv A ltb s -> Forall (op_ok A) ops -> run_ok A ltb eqb s ops.
Proof. intros A ltb eqb [H1 [H2 [H3 H4]]] ops s HI Hok. apply run_ok_all; assumption. Qed.
Print Assumptions C33_sortedset_partial.

(* the set and a copy of it (copy(), or intersection()/difference()/union() without arguments): after ANY sequence of
   operations on either of them both stay strictly sorted, the operated one follows `spec`, and the OTHER ONE IS UNCHANGED
   (a copy is an independent set with the same members) *)
Theorem C33_sortedset_copy_independent : forall A (ltb eqb : A -> A -> bool), total_order ltb eqb ->
  forall ops st, Inv A ltb (fst st) -> Inv A ltb (snd st) -> Forall (op2_ok A) ops -> run2_ok A ltb eqb st ops.
Proof. intros A ltb eqb [H1 [H2 [H3 H4]]] ops st Hs Hc Hok. apply run2_ok_all; assumption. Qed.
Print Assumptions C33_sortedset_copy_independent.

(* != is the negation of == for every operand kind *)
Theorem C33_sortedset_ne_is_not_eq : forall A (ltb eqb : A -> A -> bool) s o,
  set_ne A ltb eqb s o = negb (set_eq A ltb eqb s o).
Proof. intros. apply set_ne_negb. Qed.
Print Assumptions C33_sortedset_ne_is_not_eq.

Theorem C33_sortedset_invariant : forall A (ltb eqb : A -> A -> bool), total_order ltb eqb ->
  forall ops, Forall (op_ok A) ops ->
  StronglySorted (fun x y => ltb x y = true) (SortedSet.final A ltb eqb [] ops) /\ NoDup (SortedSet.final A ltb eqb [] ops).
Proof.
  intros A ltb eqb [H1 [H2 [H3 H4]]] ops Hok.
  assert (Inv A ltb (SortedSet.final A ltb eqb [] ops)) as HI by (apply final_inv; try assumption; constructor).
  split; [exact HI|]. apply (Inv_NoDup A ltb H1). exact HI.
Qed.
Print Assumptions C33_sortedset_invariant.

(* the abstraction (the set of members) determines the representation: two sorted states with the same members
   are the same list, so `spec` pins down every state exactly *)
Theorem C33_sortedset_canonical : forall A (ltb eqb : A -> A -> bool), total_order ltb eqb ->
  forall s t, Inv A ltb s -> Inv A ltb t -> (forall y, In y s <-> In y t) -> s = t.
Proof. intros A ltb eqb [H1 [H2 [H3 H4]]]. apply (sorted_ext A ltb H1 H2). Qed.
Print Assumptions C33_sortedset_canonical.

Theorem C33_iteration_ascending : forall A (ltb eqb : A -> A -> bool), total_order ltb eqb ->
  forall ops, Forall (op_ok A) ops -> forall i j u v, i < j ->
  nth_error (SortedSet.final A ltb eqb [] ops) i = Some u -> nth_error (SortedSet.final A ltb eqb [] ops) j = Some v -> ltb u v = true.
Proof.
  intros A ltb eqb [H1 [H2 [H3 H4]]] ops Hok i j u v L Hu Hv.
  eapply (sorted_nth A ltb); [|exact L|exact Hu|exact Hv]. apply final_inv; try assumption. constructor.
Qed.
Print Assumptions C33_iteration_ascending.

(* ints and tuples/lists of ints (the instances the correspondence runs) are total orders *)
Theorem C33_sortedset_ints : forall ops, Forall (op_ok Z) ops -> run_ok Z z_ltb z_eqb [] ops.
Proof.
  intros ops H. apply C33_sortedset_partial; [|constructor|exact H].
  repeat split; [apply z_ltb_irrefl|apply z_ltb_trans|apply z_ltb_total|apply z_eqb_spec|apply z_eqb_spec].
Qed.
Print Assumptions C33_sortedset_ints.

Theorem C33_sortedset_tuples : forall ops, Forall (op_ok (list Z)) ops -> run_ok (list Z) lz_ltb lz_eqb [] ops.
Proof.
  intros ops H. apply C33_sortedset_partial; [|constructor|exact H].
  repeat split; [apply lz_ltb_irrefl|apply lz_ltb_trans|apply lz_ltb_total|apply lz_eqb_spec|apply lz_eqb_spec].
Qed.
Print Assumptions C33_sortedset_tuples.

(* FULL statement: the same for every element type whose `<` merely is a strict (partial) order -- which is all a
   Python type with `<` provides; nested sets (frozenset, SortedSet itself: `<` is proper subset) are such types *)
Definition C33_full_statement : Prop :=
  forall A (ltb eqb : A -> A -> bool), partial_order ltb eqb ->
  forall ops, Forall (op_ok A) ops -> run_ok A ltb eqb [] ops.

Theorem C33_sortedset_refuted : ~ C33_full_statement.
Proof.
  intro H. apply bm_run_not_ok. apply H.
  - repeat split; [apply bm_ltb_irrefl|apply bm_ltb_trans|apply bm_eqb_spec|apply bm_eqb_spec].
  - repeat constructor.
Qed.
Print Assumptions C33_sortedset_refuted.

(* ---------------------------------------------------------------- OrderedMap *)
(* for ANY key serializer and ANY operation sequence (each _insert_unchecked used as the deserializers use it:
   with the key's own serialization, key not present): the index/items invariant holds after every step and
   items + every result equal those of the insertion-ordered association list keyed by `serialize k` *)
Theorem C33_orderedmap_refines : forall K V (serialize : K -> list Z) key_eqb val_eqb ops,
  run_refines K V serialize key_eqb val_eqb (empty K V) ops.
Proof. intros. apply run_refines_all. apply wf_empty. Qed.
Print Assumptions C33_orderedmap_refines.

(* the association list is a mapping on serialized keys: lookup after insert *)
Theorem C33_orderedmap_lookup_insert : forall K V (serialize : K -> list Z) l k v fk,
  NoDup (keys_of K V serialize l) ->
  a_lookup K V serialize (a_insert K V serialize l k v) fk =
  if bytes_eqb (serialize k) fk then Some v else a_lookup K V serialize l fk.
Proof. intros. apply lookup_insert. assumption. Qed.
Print Assumptions C33_orderedmap_lookup_insert.

(* insertion order: a new key goes to the end, an existing key keeps its position *)
Theorem C33_orderedmap_insertion_order : forall K V (serialize : K -> list Z) l k v,
  (find_pos (serialize k) (keys_of K V serialize l) = None -> a_insert K V serialize l k v = l ++ [(k, v)]) /\
  (forall i, find_pos (serialize k) (keys_of K V serialize l) = Some i ->
     keys_of K V serialize (a_insert K V serialize l k v) = keys_of K V serialize l /\
     nth_error (a_insert K V serialize l k v) i = Some (k, v)).
Proof. intros. split; [apply a_insert_new|apply a_insert_keys_present]. Qed.
Print Assumptions C33_orderedmap_insertion_order.

Local Open Scope Z_scope.
Example C33_nonvacuous_set :
  map snd (SortedSet.run Z z_ltb z_eqb [] [OAdd 5; OAdd 2; OAdd 9; OAdd 5; OContains 2; ORemove 5; OPop; OIter;
                                  OUnion [SSet [7; 1]; PSet [2; 3]]; OIsSubset (PSet [2; 4])]) =
  [RNone; RNone; RNone; RNone; RBool true; RNone; RElem 9; RItems [2]; RItems [1; 2; 3; 7]; RBool true].
Proof. reflexivity. Qed.

Example C33_nonvacuous_copy :
  map (fun x => fst x) (run2 Z z_ltb z_eqb ([], []) [OMain (OUpdate [3; 1]); OCopy ByCopy; OOnCopy (OAdd 2); OMain (ORemove 3);
                                                      OMain (ONe (PSet [1; 2]))]) =
  [([1; 3], []); ([1; 3], [1; 3]); ([1; 3], [1; 2; 3]); ([1], [1; 2; 3]); ([1], [1; 2; 3])].
Proof. reflexivity. Qed.

Example C33_nonvacuous_map :
  map snd (OrderedMap.run (Z * list Z) Z kz_serialize kz_eqb Z.eqb (empty _ _)
             [MInsert (1, [1]) 10; MInsert (2, [0]) 20; MInsert (3, [1]) 30; MKeys; MGet (1, [1]); MDel (2, [0]); MItems; MPopItem; MLen]) =
  [XNone; XNone; XNone; XKeys [(3, [1]); (2, [0])]; XVal 30; XNone; XItems [((3, [1]), 30)]; XItem ((3, [1]), 30); XLen 0%nat].
Proof. reflexivity. Qed.
